package engine

// World C scheduler: FS gates, classification of parked operations, quiescence
// detection from runtime.Stack headers, seeded / PCT / guided choice of the next
// action, deadlock detection.

import (
	"fmt"
	"os"
	"runtime"
	"sort"
	"strconv"
	"strings"
	"sync"
	"sync/atomic"
	"time"

	"github.com/openGemini/openGemini/verifsim/core"
	"github.com/openGemini/openGemini/verifsim/simfs"
	"github.com/openGemini/openGemini/verifsim/verifyield"
)

// cwParked is one file-system operation waiting at its gate.
type cwParked struct {
	site  string // lock-level yield point ("" for a file-system operation)
	class string // who issues it: w1..w3 | query | flush | compact | merge | seqload | drop | close | other
	kind  simfs.Kind
	path  string
	off   int64
	size  int
	ch    chan struct{}
	seq   int64 // arrival number (diagnostics; tie-break among serialisation parks of one site)
	goid  int64
	auto  bool // parked only to be serialised: resumed by the scheduler without a choice
	who   string // yield points: the task (w1..w3, r1, r2, flusher, ...) if the goroutine is a task's own, else the class
	ent   *simfs.Entry // the file-system operation itself (crash images: a parked write may land as a prefix)
}

func (p *cwParked) desc() string {
	if p.site != "" {
		return "yield " + p.who + " " + p.site
	}
	return "fs " + p.class + " " + p.kind.String() + " " + cwPathClass(cwNormPath(p.path))
}

// cwPathClass: simfs.PathClass per path component, but measurement directories keep
// their name (a directed schedule must be able to tell the measurements apart).
func cwPathClass(p string) string {
	parts := strings.Split(p, "/")
	for i, c := range parts {
		if !strings.HasPrefix(c, "mst") {
			parts[i] = simfs.PathClass(c)
		}
	}
	return strings.Join(parts, "/")
}

func (p *cwParked) sortKey() string {
	if p.site != "" {
		return "~yield|" + p.site + "|" + p.who // after every file-system operation
	}
	return fmt.Sprintf("%s|%s|%02d|%012d|%08d|%s", cwNormPath(p.path), p.class, p.kind, p.off+1, p.size, p.who)
}

// cwNormPath removes the random part of compaction-log file names (crypto/rand).
func cwNormPath(p string) string {
	if i := strings.Index(p, "compact_log/"); i >= 0 {
		return p[:i] + "compact_log/x"
	}
	return p
}

func cwHash(s string, a, b int64) uint64 {
	h := uint64(14695981039346656037)
	for i := 0; i < len(s); i++ {
		h ^= uint64(s[i])
		h *= 1099511628211
	}
	h ^= uint64(a) * 0x9e3779b97f4a7c15
	h *= 1099511628211
	h ^= uint64(b)
	h *= 1099511628211
	return h >> 7
}

// cwTaskRun is the state of one started client operation.
type cwTaskRun struct {
	op       int // index into the case's op list
	task     int
	goid     int64
	start    int
	done     atomic.Bool
	observed bool
	err      error
	panicked string
	rows     map[string][]sDumpRow // query result
	order    []string
}

type cwSched struct {
	mu       sync.Mutex
	parked   []*cwParked
	free     atomic.Bool // free-run: nothing parks
	arrivals int64
	goTask   map[int64]string // goroutine id -> class of the task goroutine (writers)
	readCls  map[string]bool  // classes whose reads park
	readNth  int              // park every n-th read of a class (>=1)
	readCnt  map[string]int
	buf      []byte
	selfID   int64
	polls    int64
	dbg      bool
	fsSteps  map[string]int64 // released FS ops per class (statistics)
	gatedOps int64

	// lock-level yield points (verifyield): which arrivals park is a pure function of
	// (lockSeed, class, site, occurrence number of that class at that site)
	lockNth   int             // 0 = off, 1 = every arrival, n = one in n
	lockSeed  int64
	lockSites []string        // substrings; empty = every site
	lockCls   map[string]bool // classes that park at yield points; empty = every task class
	siteOK    sync.Map        // site -> bool (lockSites filter, cached)
	goWho     map[int64]string // goroutine id -> task name (w1, r2, flusher, ...) of every task goroutine
	goAll     map[int64]string // goroutine id -> class of EVERY task goroutine (yield points only; goTask keeps the FS descriptors of old replays stable)
	yCnt      map[string]int64 // class|site -> arrivals
	ySteps    map[string]int64 // released yield points per class (statistics)
	yHits     atomic.Int64     // arrivals at yield points while the scheduler was in control
	yParked   atomic.Int64     // arrivals that parked
	stackMemo sync.Map         // hash of a call stack -> class
	micro     []string         // CW_MICRO=1
	oneP      bool             // GOMAXPROCS == 1
	serial    bool             // serialise the goroutines of one step at yield points (one P, not a chaos worker)
	actor     int64            // goroutine released or started by the scheduler in this step
	yAuto     atomic.Int64     // arrivals parked for serialisation
	nAuto     int64            // ... and resumed by the scheduler
	stepNo    atomic.Int64
	// suspended: a crash image is being recovered (c_crash.go); goroutines that are not tasks of the
	// live run (the recovery's own, above all) pass every yield point
	suspended atomic.Bool
}

var cwMicro = os.Getenv("CW_MICRO") != ""


func newCwSched(readClasses string, nth int) *cwSched {
	s := &cwSched{goTask: map[int64]string{}, readCls: map[string]bool{}, readNth: nth, readCnt: map[string]int{}, buf: make([]byte, 1<<20), fsSteps: map[string]int64{},
		lockCls: map[string]bool{}, goAll: map[int64]string{}, goWho: map[int64]string{}, yCnt: map[string]int64{}, ySteps: map[string]int64{}}
	for _, c := range strings.Split(readClasses, ",") {
		if c != "" {
			s.readCls[c] = true
		}
	}
	if s.readNth < 1 {
		s.readNth = 1
	}
	s.free.Store(true)
	return s
}

func cwGoID() int64 {
	var b [64]byte
	n := runtime.Stack(b[:], false)
	// "goroutine 123 ["
	f := strings.Fields(string(b[:n]))
	if len(f) >= 2 {
		id, _ := strconv.ParseInt(f[1], 10, 64)
		return id
	}
	return -1
}

// cwMarkers: innermost matching frame decides the class of an FS operation.
var cwMarkers = []struct{ sub, class string }{
	{"TableStoreGC", "gc"},
	{"idTimesLoader", "seqload"},
	{"reloadSequencer", "seqload"},
	{"loadIdTimes", "seqload"},
	{"mergeTool", "merge"},
	{"mergeOutOfOrder", "merge"},
	{"mergePerformer", "merge"},
	{"MergePerformers", "merge"},
	{"deleteUnorderedFiles", "merge"},
	{"replaceMergedFiles", "merge"},
	{"execMergeContext", "merge"},
	{"DropMeasurement", "drop"},
	{"deleteFilesForDropMeasurement", "drop"},
	{"compactToLevel", "compact"},
	{"compactTask", "compact"},
	{"CompactGroup", "compact"},
	{"LevelCompact", "compact"},
	{"FullCompact", "compact"},
	{"streamCompact", "compact"},
	{"StreamCompact", "compact"},
	{".compact", "compact"},
	{"writeSnapshot", "flush"},
	{"commitSnapshot", "flush"},
	{"FlushChunks", "flush"},
	{"ForceFlush", "flush"},
	{"(*shard).Close", "close"},
	{"(*MmsTables).Close", "close"},
	{"(*WAL).Close", "close"},
	{"ChunkReader", "query"},
	{"CreateCursor", "query"},
	{"ursor).", "query"},
	{"cwRunQuery", "query"},
	{"(*shard).WriteRows", "write"},
}

func cwClassify() string {
	var pcs [48]uintptr
	n := runtime.Callers(3, pcs[:])
	return cwClassifyPCs(pcs[:n])
}

// classifyMemo: cwClassify of the caller's caller, memoised on the call stack (yield
// points are hit far more often than file-system gates).
func (s *cwSched) classifyMemo() string {
	var pcs [48]uintptr
	n := runtime.Callers(3, pcs[:])
	h := uint64(14695981039346656037)
	for _, pc := range pcs[:n] {
		h ^= uint64(pc)
		h *= 1099511628211
	}
	if c, ok := s.stackMemo.Load(h); ok {
		return c.(string)
	}
	c := cwClassifyPCs(pcs[:n])
	s.stackMemo.Store(h, c)
	return c
}

func cwClassifyPCs(pcs []uintptr) string {
	frames := runtime.CallersFrames(pcs)
	first := ""
	// a drop runs a flush inside; a flush runs inside a drop: outermost "drop" wins
	for {
		fr, more := frames.Next()
		fn := fr.Function
		if strings.Contains(fn, "openGemini/engine") {
			for _, m := range cwMarkers {
				if strings.Contains(fn, m.sub) {
					if first == "" {
						first = m.class
					}
					if m.class == "drop" || m.class == "close" {
						return m.class
					}
					break
				}
			}
		}
		if !more {
			break
		}
	}
	if first == "" {
		return "other"
	}
	return first
}

func cwGatedPath(p string) bool {
	return strings.HasPrefix(p, "data/") || strings.HasPrefix(p, "wal/")
}

// gate is installed as both the mutation gate and the read gate of the disk.
func (s *cwSched) gate(d *simfs.Disk, e *simfs.Entry) {
	if s.free.Load() {
		return
	}
	if !cwGatedPath(e.Path) {
		return
	}
	switch e.Kind {
	case simfs.KSync, simfs.KMkdir:
		return // no state another task could observe changes here
	}
	class := cwClassify()
	if class == "gc" {
		return // the 200 ms file collector removes files nobody refers to any more: not a scheduling point
	}
	if class == "write" || class == "other" {
		s.mu.Lock()
		if c, ok := s.goTask[cwGoID()]; ok {
			class = c
		}
		s.mu.Unlock()
	}
	size := len(e.Data)
	if e.Kind == simfs.KRead {
		size = e.Flags
		// which reads park is a pure function of the read (not of arrival order: several
		// cursor goroutines of one query read concurrently)
		if !s.readCls[class] || cwHash(cwNormPath(e.Path), e.Off, int64(size))%uint64(s.readNth) != 0 {
			return
		}
	}
	p := &cwParked{class: class, kind: e.Kind, path: e.Path, off: e.Off, size: size, ch: make(chan struct{}), ent: e}
	p.goid = cwGoID()
	s.mu.Lock()
	if s.free.Load() {
		s.mu.Unlock()
		return
	}
	p.who = s.goWho[p.goid]
	s.arrivals++
	p.seq = s.arrivals
	s.parked = append(s.parked, p)
	s.mu.Unlock()
	atomic.AddInt64(&s.gatedOps, 1)
	<-p.ch
}

// cwYieldClasses: task classes whose goroutines may park at a lock-level yield point.
// Goroutines that are not part of the shard's operations (class "other" without a task:
// tickers, the index, harness probes) and the file collector never park.
var cwYieldClasses = map[string]bool{"w1": true, "w2": true, "w3": true, "query": true, "flush": true, "compact": true, "merge": true,
	"seqload": true, "drop": true, "close": true}

// cwSiteInfo: per-site facts, computed once.
type cwSiteInfo struct {
	selectable bool // may park by seeded choice (lockSites filter, exclusions, not a passive kind)
	passive    bool // kind Locked/RLocked/Waited/Recvd: parks only to serialise
}

func (s *cwSched) siteInfo(site string) *cwSiteInfo {
	if v, ok := s.siteOK.Load(site); ok {
		return v.(*cwSiteInfo)
	}
	si := &cwSiteInfo{}
	kind := site
	if i := strings.LastIndexByte(site, ':'); i >= 0 {
		kind = site[i+1:]
	}
	if i := strings.IndexByte(kind, '#'); i >= 0 {
		kind = kind[:i]
	}
	switch kind {
	case "Locked", "RLocked", "Waited", "Recvd":
		si.passive = true
	}
	si.selectable = !si.passive && len(s.lockSites) == 0
	if !si.passive {
		for _, f := range s.lockSites {
			if strings.Contains(site, f) {
				si.selectable = true
			}
		}
	}
	for _, f := range cwYieldExclude {
		if strings.Contains(site, f) {
			si.selectable = false
		}
	}
	s.siteOK.Store(site, si)
	return si
}

// yield is installed as verifyield's hook while an execution is running.
//
// Two reasons to park a task goroutine at a yield point:
//   - seeded choice (lockNth > 0): the arrival is selected by a pure function of
//     (lockSeed, class, site, ordinal of the arrival); the parked goroutine is then an
//     action offered to the scheduler like a parked file-system operation;
//   - serialisation (serial): inside one scheduler step only the goroutine the scheduler
//     released or started (the actor) runs past yield points; any other task goroutine —
//     woken by the actor's Unlock / Done / channel operation, or spawned by it — stops
//     at its next yield point and is resumed by the scheduler, alone, once the step is
//     quiescent (in canonical order, no choice involved).  What two goroutines would do
//     "at the same time" inside one step is thereby put into one deterministic order.
func (s *cwSched) yield(site string) {
	if s.free.Load() {
		return
	}
	if s.lockNth <= 0 && !s.serial && !cwMicro {
		return
	}
	class := s.classifyMemo()
	if class == "gc" {
		return
	}
	gid := cwGoID()
	s.mu.Lock()
	who, task := s.goWho[gid]
	if !task && s.suspended.Load() {
		s.mu.Unlock()
		return
	}
	if class == "write" || class == "other" {
		c, ok := s.goAll[gid]
		if !ok {
			s.mu.Unlock()
			return
		}
		class = c
	}
	s.mu.Unlock()
	if !cwYieldClasses[class] {
		return
	}
	if !task {
		who = class
	}
	si := s.siteInfo(site)
	s.yHits.Add(1)
	s.mu.Lock()
	if s.free.Load() {
		s.mu.Unlock()
		return
	}
	if cwMicro {
		// debug aid (CW_MICRO=1): every arrival of every task goroutine at every yield
		// point, in arrival order, goes to the log — shows where two executions part
		s.micro = append(s.micro, fmt.Sprintf("s%d %s %s", s.stepNo.Load(), class, site))
	}
	sel := false
	if s.lockNth > 0 && si.selectable && (len(s.lockCls) == 0 || s.lockCls[class]) {
		key := class + "|" + site
		s.yCnt[key]++
		sel = s.lockNth == 1 || cwHash(key, s.lockSeed, s.yCnt[key])%uint64(s.lockNth) == 0
	}
	if !sel && (!s.serial || s.actor == gid || s.actor == cwActorAll) {
		s.mu.Unlock()
		return
	}
	p := &cwParked{site: site, class: class, who: who, ch: make(chan struct{}), goid: gid, auto: !sel}
	s.arrivals++
	p.seq = s.arrivals
	s.parked = append(s.parked, p)
	s.mu.Unlock()
	if sel {
		s.yParked.Add(1)
	} else {
		s.yAuto.Add(1)
	}
	<-p.ch
}

// cwActorAll: no serialisation in this step (a burst: operations started together race natively).
const cwActorAll = -1

// nextAuto: the first (canonical order) goroutine that parked only to be serialised.
func (s *cwSched) nextAuto() *cwParked {
	s.mu.Lock()
	defer s.mu.Unlock()
	var best *cwParked
	for _, p := range s.parked {
		if p.auto && (best == nil || p.sortKey() < best.sortKey() || (p.sortKey() == best.sortKey() && p.goid < best.goid)) {
			best = p
		}
	}
	return best
}

func (s *cwSched) setActor(gid int64) {
	s.mu.Lock()
	s.actor = gid
	s.mu.Unlock()
}

// cwYieldExclude: yield points that never park (substrings of site names): places where
// the product relies on another goroutine making progress in bounded real time.
// Listed in the world's cfg ("env": VERIF_C_YIELD_EXCLUDE, comma separated); empty so far:
// no such place has shown up (a parked goroutine that another one polls for with
// time.Sleep keeps the step quiescent-by-sleep and is resumed by a later action).
var cwYieldExclude = func() []string {
	var out []string
	for _, f := range strings.Split(os.Getenv("VERIF_C_YIELD_EXCLUDE"), ",") {
		if f = strings.TrimSpace(f); f != "" {
			out = append(out, f)
		}
	}
	return out
}()

func (s *cwSched) installYield() { verifyield.SetHook(s.yield) }
func (s *cwSched) removeYield()  { verifyield.SetHook(nil) }

// parkedSorted returns the parked operations in canonical order.
func (s *cwSched) parkedSorted() []*cwParked {
	s.mu.Lock()
	var ps []*cwParked
	for _, p := range s.parked {
		if !p.auto {
			ps = append(ps, p)
		}
	}
	s.mu.Unlock()
	// ties (same descriptor): by goroutine id = creation order, which the program fixes; not by arrival order
	sort.SliceStable(ps, func(i, j int) bool {
		a, b := ps[i].sortKey(), ps[j].sortKey()
		return a < b || (a == b && ps[i].goid < ps[j].goid)
	})
	return ps
}

func (s *cwSched) release(p *cwParked) {
	s.mu.Lock()
	for i, x := range s.parked {
		if x == p {
			s.parked = append(s.parked[:i], s.parked[i+1:]...)
			break
		}
	}
	if p.auto {
		s.nAuto++
	} else if p.site != "" {
		s.ySteps[p.class]++
	} else {
		s.fsSteps[p.class]++
	}
	s.actor = p.goid
	s.mu.Unlock()
	close(p.ch)
}

// freeRun releases everything and stops parking.
func (s *cwSched) freeRun() {
	s.mu.Lock()
	s.free.Store(true)
	ps := s.parked
	s.parked = nil
	s.mu.Unlock()
	for _, p := range ps {
		close(p.ch)
	}
}

func (s *cwSched) nParked() int {
	s.mu.Lock()
	defer s.mu.Unlock()
	return len(s.parked)
}

// ---- quiescence ------------------------------------------------------------------

// cwActive counts goroutines other than the caller that are running, runnable or
// in a system call.  sleepers counts goroutines in time.Sleep (they will run again
// without any action of the scheduler).
func (s *cwSched) scan() (active, sleepers int) {
	for {
		n := runtime.Stack(s.buf, true)
		if n < len(s.buf) {
			s.polls++
			return cwParseStates(s.buf[:n])
		}
		s.buf = make([]byte, 2*len(s.buf))
	}
}

func cwParseStates(b []byte) (active, sleepers int) {
	first := true
	for i := 0; i < len(b); {
		// at line start
		if len(b)-i > 10 && string(b[i:i+10]) == "goroutine " {
			j := i + 10
			for j < len(b) && b[j] != '[' && b[j] != '\n' {
				j++
			}
			k := j
			for k < len(b) && b[k] != ']' && b[k] != '\n' {
				k++
			}
			if j < len(b) && b[j] == '[' && k < len(b) && b[k] == ']' {
				st := string(b[j+1 : k])
				if c := strings.IndexByte(st, ','); c >= 0 {
					st = st[:c]
				}
				if first {
					first = false // the calling goroutine
				} else {
					switch {
					case st == "running" || st == "runnable" || st == "preempted" || st == "copystack" || strings.HasPrefix(st, "GC assist"):
						active++
					case st == "syscall":
						// the signal-receiving goroutine sits in a system call for ever
						e := k
						for e < len(b) && b[e] != '\n' {
							e++
						}
						e2 := e + 1
						for e2 < len(b) && b[e2] != '\n' {
							e2++
						}
						if e+1 <= len(b) && !strings.Contains(string(b[e+1:min(e2, len(b))]), "signal_recv") {
							active++
						}
					case st == "sleep":
						sleepers++
					}
				}
			}
		}
		// next line
		for i < len(b) && b[i] != '\n' {
			i++
		}
		i++
	}
	return
}

// waitQuiet returns when no other goroutine is running/runnable/in a syscall for
// three consecutive polls and the parked set did not change in between.
func (s *cwSched) waitQuiet(done func() int) {
	if s.oneP {
		s.waitQuietOneP(done)
		return
	}
	quiet := 0
	lastPark, lastDone := -1, -1
	t0 := time.Now()
	baseSleep := -1
	for it := 0; ; it++ {
		runtime.Gosched()
		a, sl := s.scan()
		np, nd := s.nParked(), done()
		if baseSleep < 0 {
			baseSleep = sl
		}
		if a == 0 && np == lastPark && nd == lastDone {
			quiet++
		} else {
			quiet = 0
		}
		lastPark, lastDone = np, nd
		if quiet >= 4 {
			if s.dbg {
				// debug: is anything still moving 5 ms after "quiescence"?  If so: what was
				// that goroutine doing when quiescence was declared?
				before := s.dump()
				s.mu.Lock()
				old := map[*cwParked]bool{}
				for _, p := range s.parked {
					old[p] = true
				}
				s.mu.Unlock()
				time.Sleep(5 * time.Millisecond)
				a2, _ := s.scan()
				if a2 != 0 || s.nParked() != np || done() != nd {
					fmt.Printf("CW LATE active=%d parked %d->%d done %d->%d\n%s", a2, np, s.nParked(), nd, done(), cwActiveTops(string(s.buf)))
					s.mu.Lock()
					for _, p := range s.parked {
						if !old[p] {
							fmt.Printf("CW LATE newly parked: %s (goroutine %d); at quiescence it was:\n%s\n", p.desc(), p.goid, cwTrimDump(cwGoroutineOf(before, p.goid), 2500))
						}
					}
					s.mu.Unlock()
				}
			}
			return
		}
		if quiet > 0 || it > 20 {
			time.Sleep(60 * time.Microsecond)
		}
		if time.Since(t0) > 20*time.Second {
			panic(core.InfraPanic(fmt.Sprintf("world C: no quiescence within 20 s (active=%d parked=%d)\n%s", a, np, cwTrimDump(string(s.buf), 6000))))
		}
	}
}

// waitQuietOneP: with one P and no asynchronous preemption the caller runs only when no
// other goroutine is running; after a Gosched every goroutine that was runnable has had
// its turn.  Quiescent = two consecutive scans without a running/runnable/syscall
// goroutine and with the same parked set and done counter.  The caller never sleeps
// while others are active (a timer wake-up of the scheduler goroutine would itself
// reorder the run queue).
func (s *cwSched) waitQuietOneP(done func() int) {
	quiet := 0
	lastPark, lastDone := -1, -1
	t0 := time.Now()
	for it := 0; ; it++ {
		runtime.Gosched()
		a, _ := s.scan()
		np, nd := s.nParked(), done()
		if a == 0 && np == lastPark && nd == lastDone {
			quiet++
		} else {
			quiet = 0
		}
		lastPark, lastDone = np, nd
		if quiet >= 2 {
			return
		}
		if a > 0 && it > 200 && it%50 == 0 {
			// something sits in a long system call: let real time pass
			time.Sleep(200 * time.Microsecond)
		}
		if it%256 == 255 && time.Since(t0) > 20*time.Second {
			panic(core.InfraPanic(fmt.Sprintf("world C: no quiescence within 20 s (active=%d parked=%d)\n%s", a, np, cwTrimDump(string(s.buf), 6000))))
		}
	}
}

// cwNonIdle keeps the goroutines of a dump that mention engine code (debug aid).
func cwNonIdle(d string) string {
	var b strings.Builder
	for _, g := range strings.Split(d, "\n\n") {
		if strings.Contains(g, "openGemini/engine") && !strings.Contains(g, "minutes]") && (strings.Contains(g, "[running]") || strings.Contains(g, "[runnable]") || strings.Contains(g, "[syscall]") || strings.Contains(g, "[sleep]") || strings.Contains(g, "[IO wait]")) {
			ls := strings.Split(g, "\n")
			if len(ls) > 14 {
				ls = ls[:14]
			}
			b.WriteString(strings.Join(ls, "\n") + "\n\n")
		}
	}
	return b.String()
}

// cwActiveTops: header + frames 1..3 of every running/runnable/syscall goroutine (debug aid).
func cwActiveTops(d string) string {
	var b strings.Builder
	for i, g := range strings.Split(d, "\n\n") {
		if i == 0 {
			continue
		}
		ls := strings.Split(g, "\n")
		if len(ls) < 2 || !(strings.Contains(ls[0], "[running") || strings.Contains(ls[0], "[runnable") || strings.Contains(ls[0], "[syscall")) || strings.Contains(g, "signal_recv") {
			continue
		}
		b.WriteString("   LATE-ACTIVE " + ls[0])
		for k := 1; k < len(ls) && k <= 9; k += 2 {
			b.WriteString(" < " + ls[k])
		}
		b.WriteString("\n")
	}
	return b.String()
}

// cwGoroutineOf: the stack of one goroutine out of a dump (debug aid).
func cwGoroutineOf(dump string, goid int64) string {
	pre := fmt.Sprintf("goroutine %d [", goid)
	for _, g := range strings.Split(dump, "\n\n") {
		if strings.HasPrefix(g, pre) {
			return g
		}
	}
	return "(goroutine did not exist yet)"
}

func cwTrimDump(d string, n int) string {
	if len(d) > n {
		return d[:n]
	}
	return d
}

// dump returns the stacks of all goroutines.
func (s *cwSched) dump() string {
	for {
		n := runtime.Stack(s.buf, true)
		if n < len(s.buf) {
			return string(s.buf[:n])
		}
		s.buf = make([]byte, 2*len(s.buf))
	}
}

// cwBlockedSummary extracts, from a goroutine dump, the goroutines of this run's
// shard (stack mentions root) ... it returns for every goroutine blocked on a sync
// primitive inside engine code "state@innermost engine function", sorted and
// de-duplicated, plus the stacks of those goroutines.
func cwBlockedSummary(dump string, self int64) (summary string, stacks string) {
	var keys []string
	seen := map[string]bool{}
	var sb strings.Builder
	for _, g := range strings.Split(dump, "\n\n") {
		lines := strings.Split(g, "\n")
		if len(lines) < 2 || !strings.HasPrefix(lines[0], "goroutine ") {
			continue
		}
		hd := lines[0]
		a, b := strings.IndexByte(hd, '['), strings.IndexByte(hd, ']')
		if a < 0 || b < a {
			continue
		}
		st := hd[a+1 : b]
		long := strings.Contains(st, "minutes")
		if c := strings.IndexByte(st, ','); c >= 0 {
			st = st[:c]
		}
		if long {
			continue // left over from much earlier
		}
		if !(strings.HasPrefix(st, "sync.") || st == "semacquire" || st == "chan receive" || st == "chan send" || st == "select") {
			continue
		}
		fn := ""
		engine := false
		for _, l := range lines[1:] {
			if strings.HasPrefix(l, "github.com/openGemini/openGemini/engine") && !strings.Contains(l, "zz_verif") && !strings.Contains(l, ".cw") {
				f := strings.TrimPrefix(l, "github.com/openGemini/openGemini/")
				if i := strings.LastIndex(f, "("); i > 0 {
					f = f[:i]
				}
				if fn == "" {
					fn = f
				}
				engine = true
			}
		}
		if !engine {
			continue
		}
		if !strings.HasPrefix(st, "sync.") && st != "semacquire" {
			// channel waits: only those of this world's tasks or of shard code are relevant;
			// background tickers of the engine (select loops) are not
			if st == "select" || !strings.Contains(g, ".cw") {
				continue
			}
		}
		key := st + "@" + fn
		if !seen[key] {
			seen[key] = true
			keys = append(keys, key)
		}
		if sb.Len() < 9000 {
			n := len(lines)
			if n > 24 {
				n = 24
			}
			sb.WriteString(strings.Join(lines[:n], "\n"))
			sb.WriteString("\n\n")
		}
	}
	sort.Strings(keys)
	if len(keys) > 6 {
		keys = keys[:6]
	}
	return strings.Join(keys, " | "), sb.String()
}
