package engine

// World D: the seam between the world (package engine, needs unexported access to
// shards and cursors) and the ts-store message handlers (package
// app/ts-store/transport/handler imports this package, so they can only be reached
// from the external test package: d_handlers.go, package engine_test, registers an
// implementation of DwStoreDDL in its init function).

import (
	"github.com/openGemini/openGemini/lib/util/lifted/influx/influxql"
	"github.com/openGemini/openGemini/lib/util/lifted/influx/meta"
)

// DwStoreDDL is the store node's DDL surface as the SQL node / meta service reach it:
// one call = one DDL message handled by handler.NewHandler(type).Process().
type DwStoreDDL interface {
	// Bind a new incarnation of the store: the handlers' storage.Storage gets this engine
	// and a metaclient.Client whose cache is the catalogue.
	Bind(e Engine, data *meta.Data)
	// DropSeries = netstorage.DropSeries (cond: text of the condition, "" = none)
	DropSeries(db string, pts []uint32, names []string, cond string) error
	// DeleteMeasurement / DeleteRetentionPolicy / DeleteDatabase = the meta service's netstorage calls
	DeleteMeasurement(db, rp, name string, shardIds []uint64) error
	DeleteRetentionPolicy(db, rp string, pt uint32) error
	DeleteDatabase(db string, pt uint32) error
	// listings = netstorage.ShowSeries / ShowTagKeys / TagValues / SeriesCardinality / SeriesExactCardinality
	SeriesKeys(db string, pts []uint32, names []string, cond string, exact bool) ([]string, error)
	TagKeys(db string, pts []uint32, names []string, cond string) ([]string, error)
	TagValues(db string, pts []uint32, tagKeys map[string]map[string]struct{}, cond string, exact bool) (influxql.TablesTagSets, error)
	SeriesCardinality(db string, pts []uint32, names []string, cond string) ([]meta.MeasurementCardinalityInfo, error)
	SeriesExactCardinality(db string, pts []uint32, names []string, cond string) (map[string]uint64, error)
}

// DwStore is set by the external test package.
var DwStore DwStoreDDL
