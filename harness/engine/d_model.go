package engine

// World D: the last-write-wins reference model with drop operations, and the
// brute-force tag predicate evaluator.
//
// A cell is (database, policy, logical measurement, series, time slot).  A drop
// moves the cells it names out of the live set into a "generation" that remembers
// which operation removed them and what they held, so that a value read back later
// can be attributed: live, dropped by operation g, overwritten earlier, or foreign.

import (
	"fmt"
	"regexp"
	"sort"
	"strings"

	"github.com/openGemini/openGemini/lib/util/lifted/influx/influxql"
)

type dCell struct {
	DB, RP, M, S, T int
}

// dGen: the rows removed by one drop operation.
type dGen struct {
	Op   int    // index of the drop operation in the case
	Kind string // drop_series | drop_measurement | drop_rp | drop_database
	Rows map[dCell]map[string]sVal
	Names int // DROP SERIES: distinct versioned measurement names the statement matched
	Hist map[dCell]map[string][]sVal // values the dropped cells held earlier (overwritten before the drop; old files may still hold them)
}

type dModel struct {
	rows map[dCell]map[string]sVal
	hist map[dCell]map[string][]sVal // every value a live cell held before its current one (overwritten, not dropped)
	gens []*dGen
}

func newDModel() *dModel {
	return &dModel{rows: map[dCell]map[string]sVal{}, hist: map[dCell]map[string][]sVal{}}
}

func (m *dModel) clone() *dModel {
	n := newDModel()
	for k, fs := range m.rows {
		c := make(map[string]sVal, len(fs))
		for f, v := range fs {
			c[f] = v
		}
		n.rows[k] = c
	}
	for k, hs := range m.hist {
		c := make(map[string][]sVal, len(hs))
		for f, vs := range hs {
			c[f] = append([]sVal(nil), vs...)
		}
		n.hist[k] = c
	}
	n.gens = append([]*dGen(nil), m.gens...) // generations are immutable once made
	return n
}

// dMCode folds (db, rp, measurement) into the "measurement" digit of world S's value
// scheme, so that every value names its cell.
func dMCode(db, rp, m int) int { return db*4 + rp*2 + m }

func dCellValue(w int, c dCell, f string) sVal {
	return cellValue(w, SRow{M: dMCode(c.DB, c.RP, c.M), S: c.S, T: c.T}, f)
}

// dDecode: which (write, cell) produced a value (ok=false: booleans, foreign text).
func dDecode(v sVal) (w int, c dCell, ok bool) {
	var x int64
	switch v.Typ {
	case influxql.Integer:
		x = v.I
	case influxql.Float:
		x = int64(v.F * 8)
		if float64(x)/8 != v.F {
			return 0, dCell{}, false
		}
	case influxql.String:
		var ww, cc int
		if n, _ := fmt.Sscanf(v.S, "w%d.c%d", &ww, &cc); n != 2 {
			return 0, dCell{}, false
		}
		x = int64(ww)*1000000 + int64(cc)
	default:
		return 0, dCell{}, false
	}
	if x < 0 {
		return 0, dCell{}, false
	}
	w = int(x / 1000000)
	cell := int(x % 1000000)
	mc := cell / 100000
	c = dCell{DB: mc / 4, RP: (mc / 2) % 2, M: mc % 2, S: (cell / 1000) % 100, T: cell % 1000}
	return w, c, true
}

func (m *dModel) applyWrite(w, db, rp int, rows []SRow) {
	for _, r := range rows {
		fs := rowFields(r)
		if len(fs) == 0 {
			continue
		}
		k := dCell{db, rp, r.M, r.S, r.T}
		if m.rows[k] == nil {
			m.rows[k] = map[string]sVal{}
		}
		for _, f := range fs {
			if old, ok := m.rows[k][f]; ok {
				if m.hist[k] == nil {
					m.hist[k] = map[string][]sVal{}
				}
				m.hist[k][f] = append(m.hist[k][f], old)
			}
			m.rows[k][f] = dCellValue(w, k, f)
		}
	}
}

// drop removes the cells selected by sel and returns the generation (never nil).
func (m *dModel) drop(op int, kind string, sel func(c dCell) bool) *dGen {
	g := &dGen{Op: op, Kind: kind, Rows: map[dCell]map[string]sVal{}, Hist: map[dCell]map[string][]sVal{}}
	for k, fs := range m.rows {
		if sel(k) {
			g.Rows[k] = fs
			if h, ok := m.hist[k]; ok {
				g.Hist[k] = h
			}
			delete(m.rows, k)
			delete(m.hist, k)
		}
	}
	m.gens = append(m.gens, g)
	return g
}

// explain attributes a value read back for field f of cell c that is not the live one.
// gen != nil: it is what the cell held when drop operation gen.Op removed it.
func (m *dModel) explain(c dCell, f string, v sVal) (gen *dGen, stale bool) {
	for i := len(m.gens) - 1; i >= 0; i-- {
		if fs, ok := m.gens[i].Rows[c]; ok {
			if dv, ok := fs[f]; ok && dv.equal(v) {
				return m.gens[i], false
			}
		}
		for _, hv := range m.gens[i].Hist[c][f] {
			if hv.equal(v) {
				return m.gens[i], false
			}
		}
	}
	for _, hv := range m.hist[c][f] {
		if hv.equal(v) {
			return nil, true
		}
	}
	return nil, false
}

func (m *dModel) lastDrop() *dGen {
	if len(m.gens) == 0 {
		return nil
	}
	return m.gens[len(m.gens)-1]
}

// ---- series universe and predicates -------------------------------------------------------

func dSeriesTagMap(s int) map[string]string {
	out := map[string]string{}
	for _, t := range sSeriesTags(s) {
		out[t[0]] = t[1]
	}
	return out
}

// dSeriesOfKey: group key of "GROUP BY host, region" -> series index.
func dSeriesOfKey(nseries int) map[string]int {
	out := map[string]int{}
	for s := 0; s < nseries; s++ {
		out[sSeriesKey(s)] = s
	}
	return out
}

// dListingKey: the series key text a SHOW SERIES line carries.
func dListingKey(mst string, s int) string {
	var b strings.Builder
	b.WriteString(mst)
	tags := sSeriesTags(s)
	sort.Slice(tags, func(i, j int) bool { return tags[i][0] < tags[j][0] })
	for _, t := range tags {
		b.WriteString("," + t[0] + "=" + t[1])
	}
	return b.String()
}

// dEvalPred: brute-force evaluation of a tag predicate over one series: absent tag =
// empty string, regular expressions unanchored (Go regexp), AND / OR / parentheses.
func dEvalPred(expr influxql.Expr, tags map[string]string) (bool, error) {
	switch e := expr.(type) {
	case nil:
		return true, nil
	case *influxql.ParenExpr:
		return dEvalPred(e.Expr, tags)
	case *influxql.BinaryExpr:
		switch e.Op {
		case influxql.AND, influxql.OR:
			l, err := dEvalPred(e.LHS, tags)
			if err != nil {
				return false, err
			}
			r, err := dEvalPred(e.RHS, tags)
			if err != nil {
				return false, err
			}
			if e.Op == influxql.AND {
				return l && r, nil
			}
			return l || r, nil
		}
		ref, ok := e.LHS.(*influxql.VarRef)
		if !ok {
			return false, fmt.Errorf("unsupported predicate %s", e.String())
		}
		val := tags[ref.Val]
		switch rhs := e.RHS.(type) {
		case *influxql.StringLiteral:
			switch e.Op {
			case influxql.EQ:
				return val == rhs.Val, nil
			case influxql.NEQ:
				return val != rhs.Val, nil
			}
		case *influxql.RegexLiteral:
			var re *regexp.Regexp = rhs.Val
			switch e.Op {
			case influxql.EQREGEX:
				return re.MatchString(val), nil
			case influxql.NEQREGEX:
				return !re.MatchString(val), nil
			}
		}
		return false, fmt.Errorf("unsupported predicate %s", e.String())
	}
	return false, fmt.Errorf("unsupported predicate %T", expr)
}

// dPredSeries: the series (indexes < nseries) a predicate text selects.
func dPredSeries(cond string, nseries int) (map[int]bool, error) {
	var expr influxql.Expr
	if cond != "" {
		var err error
		expr, err = influxql.ParseExpr(cond)
		if err != nil {
			return nil, err
		}
	}
	out := map[int]bool{}
	for s := 0; s < nseries; s++ {
		ok, err := dEvalPred(expr, dSeriesTagMap(s))
		if err != nil {
			return nil, err
		}
		if ok {
			out[s] = true
		}
	}
	return out, nil
}
