package engine

// World P process isolation.  The engine keeps process-global pools of timers,
// channels and wait groups (memtable pools, resource-allocator timer pool, the
// compaction worker, ...).  A synctest bubble may not share such objects with
// another bubble, so two executions in one process would poison each other.
// Every execution of a case therefore runs in a child process of the worker
// (the same test binary, VERIF_MODE=pchild): one process, one bubble, one case.
// The parent keeps the core.Env (known-finding matching, replay semantics) and
// answers the child's "is this violation a listed finding" questions over a pipe.
// A child that dies (a panic on an engine goroutine) is reported by the parent as a
// violation of kind process_death with the innermost repo frames as attribute.

import (
	"bufio"
	"encoding/json"
	"fmt"
	"os"
	"os/exec"
	"path/filepath"
	"runtime"
	"strings"
	"syscall"
	"testing"
	"time"

	"github.com/openGemini/openGemini/verifsim/core"
)

const pwProto = "@@PW "

type pwWire struct {
	T   string           `json:"t"` // known? | outcome
	V   *core.Violation  `json:"v,omitempty"`
	O   *core.Outcome    `json:"o,omitempty"`
	Log []string         `json:"log,omitempty"`
	ID  string           `json:"id,omitempty"`
	Env *pwChildEnv      `json:"env,omitempty"`
}

type pwChildEnv struct {
	Property string            `json:"property"`
	Tier     string            `json:"tier"`
	Scratch  string            `json:"scratch"`
	Replay   bool              `json:"replay"`
	Deadline int64             `json:"deadline"`
	Extra    map[string]string `json:"extra"`
	Case     PCase             `json:"case"`
}

// pwExecParent runs the case in a child process.
func pwExecParent(c PCase, env *core.Env) (out *core.Outcome) {
	out = core.NewOutcome()
	ce := &pwChildEnv{Property: env.Property, Tier: env.Tier, Scratch: filepath.Join(env.Scratch, "c"), Replay: env.Replay, Extra: env.Extra, Case: c}
	if !env.Deadline.IsZero() {
		ce.Deadline = env.Deadline.UnixNano()
	}
	if err := os.MkdirAll(ce.Scratch, 0o755); err != nil {
		out.Infra = err.Error()
		return out
	}
	casePath := filepath.Join(env.Scratch, "case.json")
	b, _ := json.Marshal(ce)
	if err := os.WriteFile(casePath, b, 0o644); err != nil {
		out.Infra = err.Error()
		return out
	}
	errPath := filepath.Join(env.Scratch, "child.stderr")
	errFile, err := os.Create(errPath)
	if err != nil {
		out.Infra = err.Error()
		return out
	}
	defer errFile.Close()
	cmd := exec.Command(os.Args[0], "-test.run", "^TestVerifWorldP$", "-test.count", "1", "-test.timeout", "0", "-test.cpu", fmt.Sprint(runtime.GOMAXPROCS(0)))
	cmd.Env = append(os.Environ(), "VERIF_MODE=pchild", "VERIF_PCHILD_CASE="+casePath)
	cmd.Stderr = errFile
	cmd.SysProcAttr = &syscall.SysProcAttr{Pdeathsig: syscall.SIGKILL}
	stdin, err := cmd.StdinPipe()
	if err != nil {
		out.Infra = err.Error()
		return out
	}
	stdout, err := cmd.StdoutPipe()
	if err != nil {
		out.Infra = err.Error()
		return out
	}
	// the child must die with this thread's process; Pdeathsig is tied to the starting thread
	runtime.LockOSThread()
	defer runtime.UnlockOSThread()
	if err := cmd.Start(); err != nil {
		out.Infra = "start child: " + err.Error()
		return out
	}
	var final *pwWire
	sc := bufio.NewScanner(stdout)
	sc.Buffer(make([]byte, 1<<20), 64<<20)
	var other []string
	for sc.Scan() {
		line := sc.Text()
		if !strings.HasPrefix(line, pwProto) {
			if len(other) < 5000 {
				other = append(other, line)
			}
			continue
		}
		var m pwWire
		if err := json.Unmarshal([]byte(line[len(pwProto):]), &m); err != nil {
			continue
		}
		switch m.T {
		case "known?":
			id := ""
			if m.V != nil {
				id = env.KnownID(m.V, out)
			}
			rb, _ := json.Marshal(&pwWire{T: "known", ID: id})
			if _, err := stdin.Write(append(rb, '\n')); err != nil {
				break
			}
		case "outcome":
			mm := m
			final = &mm
		}
	}
	_ = stdin.Close()
	werr := cmd.Wait()
	if os.Getenv("VERIF_DEBUG") != "" {
		for _, l := range other {
			fmt.Println(l)
		}
		eb, _ := os.ReadFile(errPath)
		fmt.Println(pwStrTail(string(eb), 200000))
	}
	if final != nil && final.O != nil {
		known := out.Known
		out = final.O
		out.APILog = final.Log
		if known != nil {
			out.Known = known
		}
		if out.Stats == nil {
			out.Stats = map[string]int64{}
		}
		if out.Faults == nil {
			out.Faults = map[string]int64{}
		}
		if out.Probes == nil {
			out.Probes = map[string]int64{}
		}
		return out
	}
	// the child ended without an outcome
	eb, _ := os.ReadFile(errPath)
	text := string(eb)
	if ee, ok := werr.(*exec.ExitError); ok && ee.ExitCode() == 3 && strings.Contains(text, "PW-CHILD-WATCHDOG") {
		fmt.Fprintf(os.Stderr, "\nworld P child watchdog; child stderr follows\n%s\n", pwStrTail(text, 60000))
		out.Infra = "world P: the execution did not end within its real-time limit (child watchdog; goroutine dump in the worker log)"
		return out
	}
	frames, head := pwDeathFrames(text)
	out.Violation = &core.Violation{Property: env.Property, Kind: "process_death",
		Detail: fmt.Sprintf("the store process died (%v): %s\n%s", werr, head, pwStrTail(text, 6000)),
		Attrs: map[string]string{"frames": frames, "split_meta": fmt.Sprint(c.SplitMeta), "sg_split": fmt.Sprint(c.SGSplit), "meta_lag": fmt.Sprint(c.MetaLag)}}
	out.Log("process death: %s", frames)
	return out
}

func pwStrTail(s string, n int) string {
	if len(s) > n {
		return s[len(s)-n:]
	}
	return s
}

// pwDeathFrames extracts the panic message and the innermost repo frames of the
// goroutine that killed the process.
func pwDeathFrames(text string) (frames, head string) {
	i := strings.Index(text, "\npanic: ")
	if j := strings.Index(text, "\nfatal error: "); j >= 0 && (i < 0 || j < i) {
		i = j
	}
	if i < 0 {
		if strings.HasPrefix(text, "panic: ") || strings.HasPrefix(text, "fatal error: ") {
			i = 0
		} else {
			return "", "no panic message on stderr"
		}
	}
	rest := strings.TrimLeft(text[i:], "\n")
	ls := strings.Split(rest, "\n")
	head = ls[0]
	var fr, ext []string
	seenG := false
	defer func() {
		if frames == "" {
			if len(ext) > 3 {
				ext = ext[:3]
			}
			frames = strings.Join(ext, "<")
		}
	}()
	for _, l := range ls[1:] {
		if strings.HasPrefix(l, "goroutine ") {
			if seenG {
				break
			}
			seenG = true
			continue
		}
		if seenG && l != "" && !strings.HasPrefix(l, "\t") && !strings.HasPrefix(l, "github.com/openGemini/openGemini/") &&
			!strings.HasPrefix(l, "runtime.") && !strings.HasPrefix(l, "panic(") && !strings.HasPrefix(l, "log.") && !strings.HasPrefix(l, "created by") {
			f := l
			if k := strings.LastIndex(f, "("); k > 0 {
				f = f[:k]
			}
			ext = append(ext, f)
		}
		if strings.HasPrefix(l, "github.com/openGemini/openGemini/") && !strings.Contains(l, "verifsim") && !strings.Contains(l, "zz_verif") {
			f := strings.TrimPrefix(l, "github.com/openGemini/openGemini/")
			if k := strings.LastIndex(f, "("); k > 0 {
				f = f[:k]
			}
			if strings.Contains(f, ".pw") || strings.Contains(f, "Verif") {
				continue
			}
			fr = append(fr, f)
			if len(fr) == 3 {
				break
			}
		}
	}
	return strings.Join(fr, "<"), head
}

// ---- child side ----------------------------------------------------------------------------

var pwChildIn *bufio.Reader

// pwAskKnown asks the parent whether v is a listed finding that may be stepped over.
func pwAskKnown(v *core.Violation) string {
	if pwChildIn == nil {
		return ""
	}
	b, _ := json.Marshal(&pwWire{T: "known?", V: v})
	fmt.Printf("\n%s%s\n", pwProto, b)
	line, err := pwChildIn.ReadString('\n')
	if err != nil {
		return ""
	}
	var m pwWire
	if json.Unmarshal([]byte(line), &m) != nil {
		return ""
	}
	return m.ID
}

func pwChildMain(t *testing.T) {
	b, err := os.ReadFile(os.Getenv("VERIF_PCHILD_CASE"))
	if err != nil {
		fmt.Fprintln(os.Stderr, "world P child: cannot read the case:", err)
		os.Exit(4)
	}
	var ce pwChildEnv
	if err := json.Unmarshal(b, &ce); err != nil {
		fmt.Fprintln(os.Stderr, "world P child: bad case file:", err)
		os.Exit(4)
	}
	pwChildIn = bufio.NewReader(os.Stdin)
	env := &core.Env{Property: ce.Property, Tier: ce.Tier, Scratch: ce.Scratch, Replay: ce.Replay, Extra: ce.Extra}
	if env.Extra == nil {
		env.Extra = map[string]string{}
	}
	if ce.Deadline != 0 {
		env.Deadline = time.Unix(0, ce.Deadline)
	}
	// real-time watchdog (outside the bubble): a livelock or a mutex deadlock inside the
	// bubble would otherwise only be ended by the worker's watchdog, without a dump of
	// this process
	limit := 120 * time.Second
	go func() {
		time.Sleep(limit)
		buf := make([]byte, 8<<20)
		n := runtime.Stack(buf, true)
		fmt.Fprintf(os.Stderr, "\nPW-CHILD-WATCHDOG: execution exceeded %v; goroutine dump follows\n%s\n", limit, buf[:n])
		os.Exit(3)
	}()
	out := pwExecInBubble(t, ce.Case, env)
	if out.Violation != nil && out.Violation.Property == "" {
		out.Violation.Property = env.Property
	}
	ob, _ := json.Marshal(&pwWire{T: "outcome", O: out, Log: out.APILog})
	fmt.Printf("\n%s%s\n", pwProto, ob)
	os.Stdout.Sync()
	// leftover goroutines of a dead bubble and the test framework's own epilogue are of no interest
	os.Exit(0)
}
