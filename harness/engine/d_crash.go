package engine

// World D crash enumeration: the journal of every incarnation is cut at mutation boundaries
// inside each drop operation and the operations right after it (stratified by operation, path
// class and kind as in world S), the image is started by the real start-up path on a fresh
// directory with the catalogue as it was at that moment, and every read shape is compared with
// the model.  An in-flight DROP SERIES may have removed any subset of what it names (all shapes
// must still agree with each other) and is then retried; an in-flight DROP MEASUREMENT / POLICY /
// DATABASE was acknowledged when its mark entered the catalogue, so the meta service drives it
// again after the restart and the result must be the complete drop.

import (
	"fmt"
	"os"
	"path/filepath"
	"sort"
	"time"

	"github.com/openGemini/openGemini/verifsim/core"
	"github.com/openGemini/openGemini/verifsim/simfs"
)

func dIsDrop(k string) bool { return k == "drops" || k == "dropm" || k == "droprp" || k == "dropdb" }

func (run *dRun) crashPoints() []sCrashPt {
	c := run.c
	if c.OnlyK >= 0 && run.env.Extra["unpin"] != "all" {
		return []sCrashPt{{c.OnlyInc, c.OnlyK, c.OnlyTorn}}
	}
	inWindow := map[int]bool{}
	for i, op := range c.Ops {
		if dIsDrop(op.K) {
			for j := i; j <= i+c.CrashWindow && j < len(c.Ops); j++ {
				inWindow[j] = true
			}
		}
	}
	var pts []sCrashPt
	for inc, d := range run.incDisk {
		j := d.Journal()
		classes := map[string][]int{}
		var order []string
		for k := 0; k < len(j); k++ {
			e := j[k]
			if !inWindow[e.Tag] {
				continue
			}
			key := fmt.Sprintf("%d|%d|%s", e.Tag, e.Kind, simfs.PathClass(e.Path))
			if _, ok := classes[key]; !ok {
				order = append(order, key)
			}
			classes[key] = append(classes[key], k)
		}
		for _, key := range order {
			ks := classes[key]
			sel := ks
			if c.PerClass > 0 && len(ks) > c.PerClass {
				sel = []int{ks[0]}
				for _, x := range run.r.Sample(len(ks)-1, c.PerClass-1) {
					sel = append(sel, ks[x+1])
				}
			}
			for _, k := range sel {
				pts = append(pts, sCrashPt{inc, k, -1})
				tv := tornVariants(j[k], run.r, false)
				if len(tv) > 1 {
					tv = []int{tv[run.r.Intn(len(tv))]}
				}
				for _, t := range tv {
					pts = append(pts, sCrashPt{inc, k, t})
				}
			}
		}
	}
	return pts
}

func (run *dRun) statesFor(inc, k int, j []*simfs.Entry) (pre, post *dModel, opi int, inflight bool) {
	final := run.states[len(run.states)-1]
	if k >= len(j) {
		if inc+1 < len(run.incBase) {
			s := run.states[run.incBase[inc+1]-1]
			return s, s, run.incBase[inc+1] - 1, false
		}
		return final, final, len(run.c.Ops), false
	}
	opi = j[k].Tag
	if opi+1 >= len(run.states) {
		return final, final, opi, false
	}
	if ack, ok := run.ackPos[[2]int{inc, opi}]; ok && k >= ack {
		return run.states[opi+1], run.states[opi+1], opi, false
	}
	return run.states[opi], run.states[opi+1], opi, true
}

func (run *dRun) crashEnum() *core.Violation {
	out, c := run.out, run.c
	run.crashing = true
	defer func() { run.crashing = false }()
	pts := run.crashPoints()
	imagers := map[int]*simfs.Imager{}
	sort.SliceStable(pts, func(a, b int) bool {
		if pts[a].inc != pts[b].inc {
			return pts[a].inc < pts[b].inc
		}
		return pts[a].k < pts[b].k
	})
	for n, p := range pts {
		if !run.env.Deadline.IsZero() && time.Now().After(run.env.Deadline) && !run.env.Replay {
			out.Stats["crash_enum_cut_by_budget"]++
			break
		}
		if p.inc >= len(run.incDisk) {
			continue
		}
		j := run.incDisk[p.inc].Journal()
		if p.k > len(j) {
			continue
		}
		im := imagers[p.inc]
		if im == nil {
			base := filepath.Join(run.env.Scratch, fmt.Sprintf("base%d", p.inc))
			if err := simfs.CopyTree(run.incInit[p.inc], base); err != nil {
				panic(core.InfraPanic("copy: " + err.Error()))
			}
			im = simfs.NewImager(j, base)
			imagers[p.inc] = im
		}
		pre, post, opi, inflight := run.statesFor(p.inc, p.k, j)
		desc := "end of journal"
		if p.k < len(j) {
			desc = j[p.k].String()
		}
		opk := "end"
		var op DOp
		if opi >= 0 && opi < len(c.Ops) {
			op = c.Ops[opi]
			opk = op.K
		}
		where := fmt.Sprintf("crash in incarnation %d before journal entry %d/%d (%s), torn=%d, operation %d (%s) %s: ", p.inc, p.k, len(j), desc, p.torn, opi, opk,
			map[bool]string{true: "in flight", false: "acknowledged"}[inflight])
		dst := filepath.Join(run.env.Scratch, fmt.Sprintf("crash-%d-%d-%d", p.inc, p.k, n))
		if err := im.Snapshot(p.k, p.torn, dst); err != nil {
			panic(core.InfraPanic("image: " + err.Error()))
		}
		if p.torn >= 0 {
			out.Faults["torn_write"]++
		} else {
			out.Faults["crash"]++
		}
		out.Stats["crash_states"]++
		if inflight && dIsDrop(opk) {
			out.Probes["crash inside drop"]++
		}
		extra := map[string]string{"pin": fmt.Sprintf("%d,%d,%d", p.inc, p.k, p.torn), "inflight": map[bool]string{true: dOpAttr(opk), false: "none"}[inflight]}
		v := run.recoverAndCheck(dst, p, pre, post, opi, op, inflight, where, extra, n)
		if v != nil {
			return v
		}
	}
	return nil
}

func (run *dRun) recoverAndCheck(dir string, p sCrashPt, pre, post *dModel, opi int, op DOp, inflight bool, where string, extra map[string]string, n int) *core.Violation {
	if err := simfs.RelocateTxn(dir, run.env.Scratch, dir); err != nil {
		panic(core.InfraPanic("relocate: " + err.Error()))
	}
	cd := run.fs.NewDisk(dir)
	defer func() {
		cd.Kill()
		run.fs.Forget(cd)
		_ = os.RemoveAll(dir)
	}()
	cat := run.cat.asOf(p.inc, p.k)
	fail := func(kind, detail, opAttr string) *core.Violation {
		at := map[string]string{"op": opAttr, "shape": "-", "after": "crash"}
		for k, v := range extra {
			at[k] = v
		}
		v := &core.Violation{Property: run.prop, Kind: kind, Detail: where + detail, Attrs: at}
		if run.env.KnownID(v, run.out) != "" {
			return nil
		}
		return v
	}
	lastDrop := "none"
	if g := post.lastDrop(); g != nil {
		lastDrop = g.Kind
	}
	node, err := run.openNode(dir, cat, len(run.incDisk)+2+n)
	if err != nil {
		return fail("crash_open_failed", "start-up on the crash image failed: "+err.Error(), lastDrop)
	}
	defer func() {
		defer func() { _ = recover() }()
		_ = node.close()
	}()
	node.flushIndexes() // WAL replay re-created the series of unflushed rows
	ctx := &dCtx{i: opi, phase: "crash", model: post, cat: cat, node: node, where: where, extra: extra, physUpTo: opi, inflight: inflight}
	if inflight {
		ctx.physUpTo = opi - 1
	}
	if !inflight {
		pending := cat.pending(run.c.NDB, run.c.NRP)
		if len(pending.dbs)+len(pending.rps)+len(pending.msts) > 0 {
			panic(core.InfraPanic("a mark is pending although no drop is in flight"))
		}
		if v := run.checkAll(opi, "crash", ctx); v != nil {
			return v
		}
	} else {
		switch op.K {
		case "drops":
			ctx.pre = pre
			if v := run.checkAll(opi, "crash", ctx); v != nil {
				return v
			}
			// the client saw no answer and issues the statement again
			m2 := pre.clone()
			if v := run.opDropSeries(opi, op, m2, cat, node, false); v != nil {
				v.Kind = "crash_" + v.Kind
				v.Detail = where + "the statement issued again after the restart: " + v.Detail
				return v
			}
			ctx2 := &dCtx{i: opi, phase: "crash", model: m2, cat: cat, node: node, where: where + "after the DROP SERIES was issued again: ", extra: extra, physUpTo: opi}
			if v := run.checkAll(opi, "crash", ctx2); v != nil {
				return v
			}
			ctx = ctx2
		case "dropm", "droprp", "dropdb":
			// everything the drop does not name is as before; what it names is not readable while the mark is pending
			ctx.skip = func(db, rp, m int) bool {
				switch op.K {
				case "dropm":
					return db == op.DB && rp == op.RP && m == op.M
				case "droprp":
					return db == op.DB && rp == op.RP
				}
				return db == op.DB
			}
			if v := run.checkAll(opi, "crash", ctx); v != nil {
				return v
			}
			if err := run.redrive(cat); err != nil {
				if v := fail("crash_drop_error", "the meta service asks for the pending deletion again after the restart: "+err.Error(), dOpAttr(op.K)); v != nil {
					return v
				}
				return nil
			}
			ctx2 := &dCtx{i: opi, phase: "crash", model: post, cat: cat, node: node, where: where + "after the meta service drove the pending deletion again: ", extra: extra, physUpTo: opi}
			if v := run.checkAll(opi, "crash", ctx2); v != nil {
				return v
			}
			ctx = ctx2
		default:
			if pre != post {
				ctx.pre = pre
			}
			if v := run.checkAll(opi, "crash", ctx); v != nil {
				return v
			}
			if ctx.pre != nil {
				return nil // the recovered store holds one of several legal states: no further use in this run
			}
		}
	}
	if n%2 != 0 && run.c.OnlyK < 0 {
		return nil
	}
	// keep using the recovered store: a write to what was dropped plus fresh rows, a flush, and every read again
	m2 := ctx.model.clone()
	var rows []SRow
	wdb, wrp := 0, 0
	if g := m2.lastDrop(); g != nil && len(g.Rows) > 0 {
		var cells []dCell
		for c := range g.Rows {
			cells = append(cells, c)
		}
		sort.Slice(cells, func(a, b int) bool {
			x, y := cells[a], cells[b]
			return x.DB*1000000+x.RP*100000+x.M*10000+x.S*100+x.T < y.DB*1000000+y.RP*100000+y.M*10000+y.S*100+y.T
		})
		c0 := cells[run.r.Intn(len(cells))]
		wdb, wrp = c0.DB, c0.RP
		rows = append(rows, SRow{M: c0.M, S: c0.S, T: c0.T, F: 4}, SRow{M: c0.M, S: c0.S, T: run.r.Intn(sNumTimes), F: 4 | run.r.Intn(16)})
	}
	rows = append(rows, SRow{M: run.r.Intn(run.c.NMst), S: run.r.Intn(run.c.NSeries), T: run.r.Intn(sNumTimes), F: 4 | run.r.Intn(16)})
	wop := DOp{K: "w", ID: 900000 + n, DB: wdb, RP: wrp, Rows: rows}
	savedSeen := run.seen
	run.seen = map[string]bool{}
	v := run.writeOn(opi, wop, m2, cat, node)
	run.seen = savedSeen
	if v != nil {
		return fail("crash_"+v.Kind, "write after recovery: "+v.Detail, lastDrop)
	}
	for _, es := range node.shardList() {
		es.sh.ForceFlush()
	}
	ctx3 := &dCtx{i: opi, phase: "crash", model: m2, cat: cat, node: node, where: ctx.where + "after one more write and a flush on the recovered store: ", extra: extra, physUpTo: ctx.physUpTo, inflight: ctx.inflight}
	if v := run.checkAll(opi, "crash", ctx3); v != nil {
		return v
	}
	run.out.Stats["post_recovery_ops"]++
	return nil
}
